/-
Model/Scan — the tokeniser of spdxexp/scan.go.

`step s off` is ONE iteration of the loop in `scan`, run on the remaining input `s` whose first byte
sits at offset `off` of the caller's string: skip spaces, then read one lexeme.  The `-or-later`
buffer rewrite of `normalizeLicense` is modelled by emitting `[LIC v, +]` at once and consuming the
suffix (and one abutting `+`): the synthetic `+` that the Go code leaves in its private buffer is
always read back as the `+` operator on the next iteration (its predecessor is the last byte of `v`,
an id byte, never a space).
-/
import SpdxVerif.Model.Basic
namespace Spdx

inductive Op | with_ | and_ | or_ | lparen | rparen | colon | plus
  deriving DecidableEq, Repr

inductive Tok
  | op (o : Op) | docRef (id : Bytes) | licRef (id : Bytes) | lic (id : Bytes) | exc (id : Bytes)
  deriving DecidableEq, Repr

inductive ScanErr
  | spaceBeforePlus
  | expectedId (off : Nat)
  | unknownLicense (lex : Bytes) (off : Nat)
  deriving DecidableEq, Repr

/-- `licenseLookup`: active list, then exception list -/
def licenseLookup (w : Bytes) : Option Tok :=
  match lookup Tables.active w with
  | some c => some (.lic c)
  | none => match lookup Tables.exceptions w with
    | some c => some (.exc c)
    | none => none

/-- `normalizeLicense w` with `rest` the input after the word.  Result: tokens and remaining input. -/
def normalize (w rest : Bytes) : Option (List Tok × Bytes) :=
  match licenseLookup w with
  | some t => some ([t], rest)
  | none =>
  match (stripSuffix? w sufOnly).bind licenseLookup with
  | some t => some ([t], rest)
  | none =>
  match (if rest.head? = some 43 then licenseLookup (w ++ sufOrLater) else none) with
  | some t => some ([t], rest.tail)
  | none =>
  match (stripSuffix? w sufOrLater).bind licenseLookup with
  | some t => if rest.head? = some 43 then some ([t, .op .plus], rest.tail) else some ([t, .op .plus], rest)
  | none =>
  match lookup Tables.deprecated w with
  | some c => some ([.lic c], rest)
  | none => none

/-- `readOperator`'s list, in its order (first prefix match wins, no word boundary) -/
def opTable : List (Bytes × Op) :=
  [([87,73,84,72], .with_), ([65,78,68], .and_), ([79,82], .or_), ([40], .lparen), ([41], .rparen), ([58], .colon), ([43], .plus)]

def readOp (s : Bytes) : Option (Op × Bytes) :=
  (opTable.find? (fun p => p.1.isPrefixOf s)).map (fun p => (p.2, s.drop p.1.length))

inductive Step
  | done
  | err (e : ScanErr)
  | tok (ts : List Tok) (rest : Bytes)
  deriving DecidableEq, Repr

/-- one loop iteration; `off` = offset of `s` in the caller's string -/
def step (s : Bytes) (off : Nat) : Step :=
  let sp := s.takeWhile isSp
  let s1 := s.dropWhile isSp
  let off1 := off + sp.length
  match s1 with
  | [] => .done
  | _ :: _ =>
  match readOp s1 with
  | some (o, r) =>
    if o = .plus ∧ sp ≠ [] then .err .spaceBeforePlus else .tok [.op o] r
  | none =>
  if docRefPrefix.isPrefixOf s1 then
    let r := s1.drop docRefPrefix.length
    let id := r.takeWhile isIdChar
    if id = [] then .err (.expectedId (off1 + docRefPrefix.length))
    else .tok [.docRef id] (r.dropWhile isIdChar)
  else if licRefPrefix.isPrefixOf s1 then
    let r := s1.drop licRefPrefix.length
    let id := r.takeWhile isIdChar
    if id = [] then .err (.expectedId (off1 + licRefPrefix.length))
    else .tok [.licRef id] (r.dropWhile isIdChar)
  else
    let w := s1.takeWhile isIdChar
    if w = [] then .err (.expectedId off1) else
    match normalize w (s1.dropWhile isIdChar) with
    | none => .err (.unknownLicense w off1)
    | some (toks, r) => .tok toks r

def scanLoop : Nat → Bytes → Nat → Except ScanErr (List Tok)
  | 0, _, _ => .ok []
  | fuel+1, s, off =>
    match step s off with
    | .done => .ok []
    | .err e => .error e
    | .tok ts r => (scanLoop fuel r (off + (s.length - r.length))).map (ts ++ ·)

/-- `scan`; fuel `|s|+1` suffices because every successful step consumes at least one byte
    (`Lemmas/Scan.lean: step_suffix`, `scan_fuel`). -/
def scan (s : Bytes) : Except ScanErr (List Tok) := scanLoop (s.length + 1) s 0

end Spdx
