/-
Model/Match — single-term matching: `licensesAreCompatible`, `licenseRefsAreCompatible`,
`exceptionsAreCompatible`, `compareGT/EQ`, `sameLicenseGroup`, `getLicenseRange`, `simplifyLicense`.
-/
import SpdxVerif.Model.Expand
namespace Spdx

/-- `simplifyLicense` -/
def simplify (id : Bytes) : Bytes := (stripSuffix? id sufOrLater).getD id

/-- index of the first version group of family `g` containing `id` -/
def findGroup (g : List (List Bytes)) (id : Bytes) : Option Nat :=
  g.findIdx? (fun vg => vg.contains id)

def posIn : List (List (List Bytes)) → Nat → Bytes → Option (Nat × Nat)
  | [], _, _ => none
  | f :: fs, i, sid => match findGroup f sid with
    | some j => some (i, j)
    | none => posIn fs (i+1) sid

/-- `getLicenseRange`: (family index, version-group index) of the first occurrence -/
def pos (id : Bytes) : Option (Nat × Nat) := posIn Tables.ranges 0 (simplify id)

def sameGroup (a b : Option (Nat × Nat)) : Bool :=
  match a, b with
  | some (i, _), some (k, _) => i == k
  | _, _ => false

def compareGT (a b : Bytes) : Bool :=
  match pos a, pos b with
  | some (i, j), some (k, l) => i == k && j > l
  | _, _ => false
def compareEQ (a b : Bytes) : Bool :=
  a == b || (match pos a, pos b with
  | some (i, j), some (k, l) => i == k && j == l
  | _, _ => false)

/-- `licensesAreCompatible || licenseRefsAreCompatible` on two leaves -/
def matchLeaf : Node → Node → Bool
  | .lic a pa ea, .lic b pb eb =>
    if ea != eb then false
    else if foldEq (render (.lic a pa ea)) (render (.lic b pb eb)) then true
    else if pb then
      if pa then sameGroup (pos a) (pos b)
      else compareGT a b || compareEQ a b
    else if pa then compareGT b a || compareEQ b a
    else compareEQ a b
  | .ref da a, .ref db b => a == b && da == db
  | _, _ => false

/-- `isCompatible`, for an arbitrary single-term matcher -/
def isCompatibleBy (m : Node → Node → Bool) (part allowed : List Node) : Bool :=
  part.all (fun e => allowed.any (fun a => m e a))

def isCompatible (part allowed : List Node) : Bool := isCompatibleBy matchLeaf part allowed

/-- the verdict loop of `Satisfies` -/
def verdictBy (m : Node → Node → Bool) (n : Node) (A : List Node) : Bool :=
  (expand n).any (fun part => isCompatibleBy m part A)

def verdict (n : Node) (A : List Node) : Bool := verdictBy matchLeaf n A

end Spdx
