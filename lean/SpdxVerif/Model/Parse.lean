/-
Model/Parse — the recursive-descent parser of spdxexp/parse.go.
`PR` mirrors what each Go parse function reports: `err` (t.err set), `none` (nil, no error),
`ok node rest` (node returned, cursor advanced to `rest`).
-/
import SpdxVerif.Model.Scan
namespace Spdx

inductive Node
  | lic (id : Bytes) (plus : Bool) (exc : Option Bytes)
  | ref (doc : Option Bytes) (id : Bytes)
  | and (l r : Node)
  | or (l r : Node)
  deriving DecidableEq, Repr

inductive PR (α : Type)
  | err | none | ok (a : α) (rest : List Tok)

def parseLicenseRef : List Tok → PR Node
  | .docRef d :: .op .colon :: .licRef r :: rest => .ok (.ref (some d) r) rest
  | .docRef _ :: _ => .err
  | .licRef r :: rest => .ok (.ref none r) rest
  | _ => .none

/-- `parseLicense`, written as the seven token patterns it distinguishes -/
def parseLicense : List Tok → PR Node
  | .lic id :: .op .plus :: .op .with_ :: .exc e :: r => .ok (.lic id true (some e)) r
  | .lic _ :: .op .plus :: .op .with_ :: _ => .err
  | .lic id :: .op .plus :: r => .ok (.lic id true none) r
  | .lic id :: .op .with_ :: .exc e :: r => .ok (.lic id (sufOrLater.isSuffixOf id) (some e)) r
  | .lic _ :: .op .with_ :: _ => .err
  | .lic id :: r => .ok (.lic id (sufOrLater.isSuffixOf id) none) r
  | _ => .none

mutual
def parseAtom : Nat → List Tok → PR Node
  | 0, _ => .err
  | fuel+1, ts =>
    match ts with
    | .op .lparen :: rest =>
      match parseExpression fuel rest with
      | .ok e (.op .rparen :: r) => .ok e r
      | _ => .err
    | _ =>
      match parseLicenseRef ts with
      | .err => .err
      | .ok n r => .ok n r
      | .none =>
        match parseLicense ts with
        | .err => .err
        | .ok n r => .ok n r
        | .none => .err
def parseAnd : Nat → List Tok → PR Node
  | 0, _ => .err
  | fuel+1, ts =>
    match parseAtom fuel ts with
    | .ok l (.op .and_ :: r) =>
      (match r with
       | [] => .err
       | _ => match parseAnd fuel r with
         | .ok rt r' => .ok (.and l rt) r'
         | _ => .err)
    | x => x
def parseExpression : Nat → List Tok → PR Node
  | 0, _ => .err
  | fuel+1, ts =>
    match parseAnd fuel ts with
    | .ok l (.op .or_ :: r) =>
      (match r with
       | [] => .err
       | _ => match parseExpression fuel r with
         | .ok rt r' => .ok (.or l rt) r'
         | _ => .err)
    | x => x
end

/-- `parseTokens`: a successful parse consumes every token.  Fuel `3|ts|+3` suffices
    (`Props/C05.lean: parseTokens_iff`). -/
def parseTokens (ts : List Tok) : Option Node :=
  match ts with
  | [] => none
  | _ => match parseExpression (3 * ts.length + 3) ts with
    | .ok n [] => some n
    | _ => none

inductive ParseErr | empty | scan (e : ScanErr) | syntax
  deriving DecidableEq, Repr

/-- `parse`: the single validity decision -/
def parse (s : Bytes) : Except ParseErr Node :=
  if s.isEmpty then .error .empty else
  match scan s with
  | .error e => .error (.scan e)
  | .ok ts => match parseTokens ts with
    | some n => .ok n
    | none => .error .syntax

def valid (s : Bytes) : Bool := match parse s with | .ok _ => true | .error _ => false

end Spdx
