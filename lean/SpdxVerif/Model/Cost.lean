/-
Model/Cost — the abstract quantities that the cost model of C14 is stated over.
-/
import SpdxVerif.Model.Api
namespace Spdx

/-- number of alternatives of the OR-of-ANDs form -/
def alts : Node → Nat
  | .and l r => alts l * alts r
  | .or l r => alts l + alts r
  | _ => 1

def leafCount : Node → Nat
  | .and l r => leafCount l + leafCount r
  | .or l r => leafCount l + leafCount r
  | _ => 1

/-- leaf slots materialised by the expansion -/
def slots (n : Node) : Nat := ((expandTerm n).map List.length).sum

/-- slice-header and slot copies made while the expansion is assembled bottom-up: every internal node
    copies (at most) all alternatives of its subtree once -/
def copyWork : Node → Nat
  | .and l r => copyWork l + copyWork r + 3 * (alts l * alts r) + (leafCount l + leafCount r) * (alts l * alts r)
  | .or l r => copyWork l + copyWork r + 3 * (alts l + alts r) + (leafCount l + leafCount r) * (alts l + alts r)
  | _ => 4

/-- number of loop iterations of the scanner that perform the `-or-later` buffer rewrite
    (the only iterations that emit two tokens) -/
def rewriteCount : Nat → Bytes → Nat
  | 0, _ => 0
  | fuel+1, s =>
    match step s 0 with
    | .tok ts r => (if ts.length = 2 then 1 else 0) + rewriteCount fuel r
    | _ => 0

end Spdx
