/-
Model/GoShaped — "layer G": the token cursor and the recursive-descent parser of spdxexp/parse.go transliterated
statement by statement, with every Go operation that can panic made explicit:

  * `index l i`      — `l[i]`, panics when `i` is out of range
  * `deref o`        — reading a field through a pointer (`token.role`, `token.value`), panics on nil

The guards are written where the Go source has them (`t.hasMore()` before `t.tokens[t.index]`; `token != nil &&` /
`token == nil ||` before `token.role`).  `Props/C03.lean` proves that no token sequence reaches `panic`;
the driver's `Q` operation runs this model against the implementation on the malformed-input stream.
-/
import SpdxVerif.Model.Api
namespace Spdx.G

inductive Out (α : Type)
  | ok (a : α)
  | panic
  deriving Repr

def Out.bind {α β} (x : Out α) (f : α → Out β) : Out β :=
  match x with
  | .ok a => f a
  | .panic => .panic

/-- the token stream object: tokens, cursor, and whether `t.err` is set -/
structure TS where
  toks : List Tok
  idx : Nat
  err : Bool
  deriving Repr

def index (l : List Tok) (i : Nat) : Out Tok :=
  match l[i]? with
  | some t => .ok t
  | none => .panic

/-- `*p` / `p.field` for a possibly-nil token pointer -/
def deref (o : Option Tok) : Out Tok :=
  match o with
  | some t => .ok t
  | none => .panic

def hasMore (t : TS) : Bool := t.idx < t.toks.length

/-- `peek`: `if t.hasMore() { token := t.tokens[t.index]; return &token }; return nil` -/
def peek (t : TS) : Out (Option Tok) :=
  if hasMore t then (index t.toks t.idx).bind (fun x => .ok (some x)) else .ok none

/-- `next`: `if !t.hasMore() { t.err = …; return }; t.index++` -/
def next (t : TS) : TS :=
  if hasMore t then { t with idx := t.idx + 1 } else { t with err := true }

def setErr (t : TS) : TS := { t with err := true }

/-- `parseOperator(op)`: `token := t.peek(); if token != nil && token.role == operatorToken && token.value == op { t.next(); return &token.value }; return nil` -/
def parseOperator (o : Op) (t : TS) : Out (Bool × TS) :=
  (peek t).bind fun tok =>
    if tok.isSome then
      (deref tok).bind fun x => if x = .op o then .ok (true, next t) else .ok (false, t)
    else .ok (false, t)

/-- `parseWith`: returns the exception id (the cursor is left ON the exception token, as in the Go code) -/
def parseWith (t : TS) : Out (Option Bytes × TS) :=
  (parseOperator .with_ t).bind fun (found, t) =>
    if !found then .ok (none, t) else
    (peek t).bind fun tok =>
      if tok.isNone then .ok (none, setErr t) else
      (deref tok).bind fun x =>
        match x with
        | .exc e => .ok (some e, t)
        | _ => .ok (none, setErr t)

/-- `parseLicense` -/
def parseLicense (t : TS) : Out (Option Node × TS) :=
  (peek t).bind fun tok =>
    if tok.isNone then .ok (none, t) else
    (deref tok).bind fun x =>
      match x with
      | .lic id =>
        let t := next t
        let plus0 := sufOrLater.isSuffixOf id
        if hasMore t then
          (parseOperator .plus t).bind fun (plus, t) =>
            let plus1 := plus0 || plus
            if hasMore t then
              (parseWith t).bind fun (exc, t) =>
                if t.err then .ok (none, t) else
                match exc with
                | some e => .ok (some (.lic id plus1 (some e)), next t)
                | none => .ok (some (.lic id plus1 none), t)
            else .ok (some (.lic id plus1 none), t)
        else .ok (some (.lic id plus0 none), t)
      | _ => .ok (none, t)

/-- the optional `DocumentRef-… :` part of `parseLicenseRef` (`x` is the token just peeked) -/
def parseDocPart (x : Tok) (t : TS) : Out (Option Bytes × TS) :=
  match x with
  | .docRef d =>
    (parseOperator .colon (next t)).bind fun (found, t) =>
      if !found then .ok (some d, setErr t) else .ok (some d, t)
  | _ => .ok (none, t)

/-- `parseLicenseRef` -/
def parseLicenseRef (t : TS) : Out (Option Node × TS) :=
  (peek t).bind fun tok =>
    if tok.isNone then .ok (none, t) else
    (deref tok).bind fun x =>
      (parseDocPart x t).bind fun (doc, t) =>
        if t.err then .ok (none, t) else
        (peek t).bind fun tok2 =>
          if tok2.isNone then
            (if doc.isSome then .ok (none, setErr t) else .ok (none, t))
          else
          (deref tok2).bind fun y =>
            match y with
            | .licRef r => .ok (some (.ref doc r), next t)
            | _ => if doc.isSome then .ok (none, setErr t) else .ok (none, t)

mutual
/-- `parseParenthesizedExpression` -/
def parseParen : Nat → TS → Out (Option Node × TS)
  | 0, t => .ok (none, setErr t)
  | fuel+1, t =>
    (parseOperator .lparen t).bind fun (found, t) =>
      if !found then .ok (none, t) else
      (parseExpression fuel t).bind fun (e, t) =>
        if t.err then .ok (none, t) else
        if !hasMore t then .ok (none, setErr t) else
        (parseOperator .rparen t).bind fun (close, t) =>
          if !close then .ok (none, setErr t) else .ok (e, t)

/-- `parseAtom` -/
def parseAtom : Nat → TS → Out (Option Node × TS)
  | 0, t => .ok (none, setErr t)
  | fuel+1, t =>
    (parseParen fuel t).bind fun (p, t) =>
      if t.err then .ok (none, t) else
      if p.isSome then .ok (p, t) else
      (parseLicenseRef t).bind fun (r, t) =>
        if t.err then .ok (none, t) else
        if r.isSome then .ok (r, t) else
        (parseLicense t).bind fun (l, t) =>
          if t.err then .ok (none, t) else
          if l.isSome then .ok (l, t) else
          -- no atom found: the diagnostics only choose the error text
          if hasMore t then
            (parseOperator .rparen t).bind fun (f1, t) =>
              if f1 then .ok (none, setErr t) else
              (parseOperator .or_ t).bind fun (f2, t) =>
                if f2 then .ok (none, setErr t) else
                (parseOperator .and_ t).bind fun (_, t) => .ok (none, setErr t)
          else .ok (none, setErr t)

/-- `parseAnd` -/
def parseAnd : Nat → TS → Out (Option Node × TS)
  | 0, t => .ok (none, setErr t)
  | fuel+1, t =>
    (parseAtom fuel t).bind fun (l, t) =>
      if t.err then .ok (none, t) else
      match l with
      | none => .ok (none, t)
      | some left =>
        if !hasMore t then .ok (some left, t) else
        (parseOperator .and_ t).bind fun (found, t) =>
          if !found then .ok (some left, t) else
          if !hasMore t then .ok (none, setErr t) else
          (parseAnd fuel t).bind fun (r, t) =>
            if t.err then .ok (none, t) else
            match r with
            | none => .ok (none, setErr t)
            | some right => .ok (some (.and left right), t)

/-- `parseExpression` -/
def parseExpression : Nat → TS → Out (Option Node × TS)
  | 0, t => .ok (none, setErr t)
  | fuel+1, t =>
    (parseAnd fuel t).bind fun (l, t) =>
      if t.err then .ok (none, t) else
      match l with
      | none => .ok (none, t)
      | some left =>
        if !hasMore t then .ok (some left, t) else
        (parseOperator .or_ t).bind fun (found, t) =>
          if !found then .ok (some left, t) else
          if !hasMore t then .ok (none, setErr t) else
          (parseExpression fuel t).bind fun (r, t) =>
            if t.err then .ok (none, t) else
            match r with
            | none => .ok (none, setErr t)
            | some right => .ok (some (.or left right), t)
end

/-- `parseTokens` -/
def parseTokens (toks : List Tok) : Out (Option Node) :=
  if toks.length = 0 then .ok none else
  (parseExpression (4 * toks.length + 4) ⟨toks, 0, false⟩).bind fun (n, t) =>
    if t.err then .ok none else
    match n with
    | none => .ok none
    | some node =>
      if hasMore t then
        -- the diagnostics (`parseOperator(")")`, `parseLicense()`) only choose the error text, but they do run
        (parseOperator .rparen t).bind fun (f1, t) =>
          if f1 then .ok none else
          (parseLicense t).bind fun _ => .ok none
      else .ok (some node)

/-- the whole of `parse`, Go-shaped from the token stream on; the scanner is the model's -/
def parse (s : Bytes) : Out (Option Node) :=
  if s.isEmpty then .ok none else
  match scan s with
  | .error _ => .ok none
  | .ok ts => parseTokens ts

end Spdx.G
