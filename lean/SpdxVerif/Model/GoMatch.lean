/-
Model/GoMatch — "layer G", part 7: single-term matching the way node.go / compare.go write it — a node is a record with
a role and POINTERS to its partials (`n.lic`, `n.ref`: nil unless the role says otherwise); the accessors return pointers
(`license()`, `exception()`, `licenseRef()`, `documentRef()`, `reconstructedLicenseString()`: nil when the role does not
fit) and their callers dereference them; `getLicenseRange` returns a pointer that is nil for ids outside the table and
`firstRange.location[...]` dereferences it.  Every dereference is a possible `panic`.
-/
import SpdxVerif.Model.GoDeref
import SpdxVerif.Model.Match
namespace Spdx.G

structure LicP where
  license : Bytes
  hasPlus : Bool
  hasException : Bool
  exception : Bytes

structure RefP where
  hasDocumentRef : Bool
  documentRef : Bytes
  licenseRef : Bytes

inductive Role | expression | licenseRef | license
  deriving DecidableEq

/-- `node` (the expression partial plays no part in matching) -/
structure GNode where
  role : Role
  lic : Option LicP
  ref : Option RefP

/-- the nodes the parser builds (`parseLicense`, `parseLicenseRef`, `parseAnd`, `parseExpression`) -/
def toG : Node → GNode
  | .lic id p e => { role := .license, lic := some { license := id, hasPlus := p, hasException := e.isSome, exception := e.getD [] }, ref := none }
  | .ref d i => { role := .licenseRef, lic := none, ref := some { hasDocumentRef := d.isSome, documentRef := d.getD [], licenseRef := i } }
  | _ => { role := .expression, lic := none, ref := none }

/-- `*p` -/
def star {α} : Option α → Out α
  | some a => .ok a
  | none => .panic

def isLicense (n : GNode) : Bool := n.role == .license
def isLicenseRef (n : GNode) : Bool := n.role == .licenseRef

/-- `license()`: `&(n.lic.license)` — the field access goes through `n.lic` -/
def licenseP (n : GNode) : Out (Option Bytes) :=
  if !isLicense n then .ok none else (star n.lic).bind fun l => .ok (some l.license)
def hasPlusG (n : GNode) : Out Bool :=
  if !isLicense n then .ok false else (star n.lic).bind fun l => .ok l.hasPlus
def hasExceptionG (n : GNode) : Out Bool :=
  if !isLicense n then .ok false else (star n.lic).bind fun l => .ok l.hasException
def exceptionP (n : GNode) : Out (Option Bytes) :=
  (hasExceptionG n).bind fun h => if !h then .ok none else (star n.lic).bind fun l => .ok (some l.exception)
def licenseRefP (n : GNode) : Out (Option Bytes) :=
  if !isLicenseRef n then .ok none else (star n.ref).bind fun r => .ok (some r.licenseRef)
def hasDocumentRefG (n : GNode) : Out Bool :=
  if !isLicenseRef n then .ok false else (star n.ref).bind fun r => .ok r.hasDocumentRef
def documentRefP (n : GNode) : Out (Option Bytes) :=
  (hasDocumentRefG n).bind fun h => if !h then .ok none else (star n.ref).bind fun r => .ok (some r.documentRef)

/-- `reconstructedLicenseString()` -/
def reconstructedP (n : GNode) : Out (Option Bytes) :=
  match n.role with
  | .license =>
    (licenseP n).bind fun lp => (star lp).bind fun license =>
    (hasPlusG n).bind fun hp =>
    let l1 := if hp then license ++ bPlus else license
    (hasExceptionG n).bind fun he =>
    if he then (exceptionP n).bind fun ep => (star ep).bind fun e => .ok (some (l1 ++ bWith ++ e))
    else .ok (some l1)
  | .licenseRef =>
    (licenseRefP n).bind fun rp => (star rp).bind fun r =>
    let l0 := licRefPrefix ++ r
    (hasDocumentRefG n).bind fun hd =>
    if hd then (documentRefP n).bind fun dp => (star dp).bind fun d => .ok (some (docRefPrefix ++ d ++ bColon ++ l0))
    else .ok (some l0)
  | .expression => .ok none

/-- `compareGT`: `firstRange.location[versionGroup]` dereferences the range pointers after `sameLicenseGroup` -/
def compareGTG (a b : GNode) : Out Bool :=
  if !isLicense a || !isLicense b then .ok false else
  (licenseP a).bind fun pa => (star pa).bind fun la =>
  (licenseP b).bind fun pb => (star pb).bind fun lb =>
  if !sameGroup (pos la) (pos lb) then .ok false else
  (star (pos la)).bind fun ra => (star (pos lb)).bind fun rb => .ok (decide (ra.2 > rb.2))

/-- `compareEQ`: `first.lic.license == second.lic.license` reads the fields directly -/
def compareEQG (a b : GNode) : Out Bool :=
  if !isLicense a || !isLicense b then .ok false else
  (star a.lic).bind fun fa => (star b.lic).bind fun fb =>
  if fa.license == fb.license then .ok true else
  (licenseP a).bind fun pa => (star pa).bind fun la =>
  (licenseP b).bind fun pb => (star pb).bind fun lb =>
  if !sameGroup (pos la) (pos lb) then .ok false else
  (star (pos la)).bind fun ra => (star (pos lb)).bind fun rb => .ok (ra.2 == rb.2)

def exceptionsAreCompatibleG (a b : GNode) : Out Bool :=
  (hasExceptionG a).bind fun ha => (hasExceptionG b).bind fun hb =>
  if !ha && !hb then .ok true else
  if ha != hb then .ok false else
  (exceptionP a).bind fun pa => (star pa).bind fun ea =>
  (exceptionP b).bind fun pb => (star pb).bind fun eb => .ok (ea == eb)

def licensesExactlyEqualG (a b : GNode) : Out Bool :=
  (reconstructedP a).bind fun pa => (star pa).bind fun sa =>
  (reconstructedP b).bind fun pb => (star pb).bind fun sb => .ok (foldEq sa sb)

def rangesAreCompatibleG (a b : GNode) : Out Bool :=
  (licenseP a).bind fun pa => (star pa).bind fun la =>
  (licenseP b).bind fun pb => (star pb).bind fun lb => .ok (sameGroup (pos la) (pos lb))

/-- `compareGT(simple, plus) || compareEQ(simple, plus)` -/
def identifierInRangeG (simple plus : GNode) : Out Bool :=
  (compareGTG simple plus).bind fun g => if g then .ok true else compareEQG simple plus

def licensesAreCompatibleG (a b : GNode) : Out Bool :=
  if !isLicense a || !isLicense b then .ok false else
  (exceptionsAreCompatibleG a b).bind fun ec => if !ec then .ok false else
  (licensesExactlyEqualG a b).bind fun eq => if eq then .ok true else
  (hasPlusG b).bind fun pb =>
  if pb then
    (hasPlusG a).bind fun pa => if pa then rangesAreCompatibleG a b else identifierInRangeG a b
  else
    (hasPlusG a).bind fun pa => if pa then identifierInRangeG b a else compareEQG a b

def licenseRefsAreCompatibleG (a b : GNode) : Out Bool :=
  if !isLicenseRef a || !isLicenseRef b then .ok false else
  (licenseRefP a).bind fun pa => (star pa).bind fun ra =>
  (licenseRefP b).bind fun pb => (star pb).bind fun rb =>
  (hasDocumentRefG a).bind fun da => (hasDocumentRefG b).bind fun db =>
  let c := ra == rb && da == db
  if c && da then
    (documentRefP a).bind fun qa => (star qa).bind fun xa =>
    (documentRefP b).bind fun qb => (star qb).bind fun xb => .ok (c && xa == xb)
  else .ok c

/-- the test of `isCompatible`: `nodes.licensesAreCompatible() || nodes.licenseRefsAreCompatible()` -/
def matchG (a b : GNode) : Out Bool :=
  (licensesAreCompatibleG a b).bind fun l => if l then .ok true else licenseRefsAreCompatibleG a b

/-- a loop that returns `true` at the first element for which the body says so (`break` / early `return`) -/
def anyG {α} (f : α → Out Bool) : List α → Out Bool
  | [] => .ok false
  | x :: xs => (f x).bind fun b => if b then .ok true else anyG f xs

/-- a loop that returns `false` at the first element for which the body says so -/
def allG {α} (f : α → Out Bool) : List α → Out Bool
  | [] => .ok true
  | x :: xs => (f x).bind fun b => if b then allG f xs else .ok false

/-- `isCompatible`: for every term of the alternative, some allowed node must match (inner loop `break`s on a match,
    outer loop returns false at the first uncovered term) -/
def isCompatibleG (part allowed : List Node) : Out Bool :=
  allG (fun e => anyG (fun a => matchG (toG e) (toG a)) allowed) part

end Spdx.G
