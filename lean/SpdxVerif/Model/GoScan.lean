/-
Model/GoScan — "layer G", part 2: the scanner of spdxexp/scan.go transliterated function by function with its private
buffer, its integer cursor and every slice expression made explicit:

  * `sl s lo hi`   — `s[lo:hi]` with Go's bounds rule (0 ≤ lo ≤ hi ≤ len(s)), indices are `Int` (so that `index-2` can be
                     negative when a guard is missing); out of bounds is `panic`
  * the `-or-later` rewrite really rebuilds the buffer (`expression[0:index-9] + "+" + TrimPrefix(expression[index:], "+")`)

`Lemmas/GoScan.lean` proves that `panic` is unreachable for every byte string (cursor invariant `index ≤ len(expression)`),
`Props/C03.lean` states it; the driver's `Q` operation runs this scanner + the Go-shaped parser against the implementation
and also reports whether it agrees with the suffix-based model used everywhere else.
-/
import SpdxVerif.Model.GoShaped
namespace Spdx.G

/-- `s[lo:hi]` -/
def sl (s : Bytes) (lo hi : Int) : Out Bytes :=
  if 0 ≤ lo ∧ lo ≤ hi ∧ hi ≤ (s.length : Int) then .ok ((s.drop lo.toNat).take (hi - lo).toNat) else .panic

/-- `s[i]` -/
def at' (s : Bytes) (i : Int) : Out Nat :=
  if 0 ≤ i ∧ i < (s.length : Int) then .ok (s.getD i.toNat 0) else .panic

/-- the expression stream: private buffer, cursor, error flag (the error TEXT is irrelevant for panics) -/
structure ES where
  expr : Bytes
  idx : Nat
  err : Bool
  deriving Repr

def esMore (e : ES) : Bool := e.idx < e.expr.length

/-- `readRegex` for the two patterns in use: a character class with `*` or `+` (a maximal run at the cursor) -/
def readRegex (cls : Nat → Bool) (e : ES) : Out (Bytes × ES) :=
  (sl e.expr e.idx e.expr.length).bind fun rest =>
    let m := (rest.takeWhile cls).length
    -- `i != nil && i[1] > 0 && i[0] == 0`
    if m > 0 then (sl rest 0 m).bind fun r => .ok (r, { e with idx := e.idx + m }) else .ok ([], e)

/-- `read(next)` -/
def read (next : Bytes) (e : ES) : Out (Bytes × ES) :=
  (sl e.expr e.idx e.expr.length).bind fun rest =>
    if next.isPrefixOf rest then .ok (next, { e with idx := e.idx + next.length }) else .ok ([], e)

def skipWhitespace (e : ES) : Out ES := (readRegex isSp e).bind fun (_, e) => .ok e

/-- the loop of `readOperator` over the possibilities -/
def readOps : List (Bytes × Op) → ES → Out (Option (Bytes × Op) × ES)
  | [], e => .ok (none, e)
  | (p, o) :: rest, e =>
    (read p e).bind fun (got, e) => if got.length > 0 then .ok (some (p, o), e) else readOps rest e

/-- `readOperator`, with the `+` look-behind `exp.index > 1 && exp.expression[exp.index-2:exp.index-1] == " "` -/
def readOperator (e : ES) : Out (Option Op × ES) :=
  (readOps opTable e).bind fun (r, e) =>
    match r with
    | none => .ok (none, e)
    | some (p, o) =>
      if p == bPlus && e.idx > 1 then
        (sl e.expr ((e.idx : Int) - 2) ((e.idx : Int) - 1)).bind fun c =>
          if c == [32] then .ok (none, { e with err := true, idx := e.idx - 1 }) else .ok (some o, e)
      else .ok (some o, e)

def readID (e : ES) : Out (Bytes × ES) :=
  (readRegex isIdChar e).bind fun (id, e) => if id.length = 0 then .ok ([], { e with err := true }) else .ok (id, e)

def readRef (pre : Bytes) (mk : Bytes → Tok) (e : ES) : Out (Option Tok × ES) :=
  (read pre e).bind fun (r, e) =>
    if r.length = 0 then .ok (none, e) else
    (readID e).bind fun (id, e) => if e.err then .ok (none, e) else .ok (some (mk id), e)

/-- `normalizeLicense` (the lookups are the model's; the slices are the Go code's) -/
def normalizeLicense (license : Bytes) (e : ES) : Out (Option (List Tok) × ES) :=
  match licenseLookup license with
  | some t => .ok (some [t], e)
  | none =>
  let len : Int := license.length
  let step2 : Out (Option Tok) :=
    if sufOnly.isSuffixOf license then (sl license 0 (len - 5)).bind fun adj => .ok (licenseLookup adj) else .ok none
  step2.bind fun r2 =>
  match r2 with
  | some t => .ok (some [t], e)
  | none =>
  let step3 : Out (Option Tok) :=
    if esMore e then
      (sl e.expr e.idx ((e.idx : Int) + 1)).bind fun c =>
        if c == bPlus then (sl license 0 len).bind fun base => .ok (licenseLookup (base ++ sufOrLater)) else .ok none
    else .ok none
  step3.bind fun r3 =>
  match r3 with
  | some t => .ok (some [t], { e with idx := e.idx + 1 })
  | none =>
  if sufOrLater.isSuffixOf license then
    (sl license 0 (len - 9)).bind fun adj =>
      match licenseLookup adj with
      | some t =>
        (sl e.expr 0 ((e.idx : Int) - 9)).bind fun head =>
          (sl e.expr e.idx e.expr.length).bind fun tail =>
            let tail' := if bPlus.isPrefixOf tail then tail.drop 1 else tail     -- strings.TrimPrefix(…, "+")
            -- the `+` left in the buffer is read as the operator by the next iteration; it is reported here as a token
            -- of this step only through the rewritten buffer
            .ok (some [t], { e with expr := head ++ bPlus ++ tail', idx := e.idx - 9 })
      | none => .ok ((lookup Tables.deprecated license).map (fun c => [.lic c]), e)
  else .ok ((lookup Tables.deprecated license).map (fun c => [.lic c]), e)

def readLicense (e : ES) : Out (Option (List Tok) × ES) :=
  let index := e.idx
  (readID e).bind fun (license, e) =>
    if e.err then .ok (none, e) else
    (normalizeLicense license e).bind fun (t, e) =>
      match t with
      | some ts => .ok (some ts, e)
      | none => .ok (none, { e with idx := index, err := true })

/-- `parseToken` (ordering matters) -/
def parseToken (e : ES) : Out (Option (List Tok) × ES) :=
  (readOperator e).bind fun (op, e) =>
    if e.err then .ok (none, e) else
    match op with
    | some o => .ok (some [.op o], e)
    | none =>
    (readRef docRefPrefix .docRef e).bind fun (d, e) =>
      if e.err then .ok (none, e) else
      match d with
      | some t => .ok (some [t], e)
      | none =>
      (readRef licRefPrefix .licRef e).bind fun (l, e) =>
        if e.err then .ok (none, e) else
        match l with
        | some t => .ok (some [t], e)
        | none =>
        (readLicense e).bind fun (id, e) =>
          if e.err then .ok (none, e) else
          match id with
          | some ts => .ok (some ts, e)
          | none =>
            -- `fmt.Sprintf("unexpected '%c' …", exp.expression[exp.index], …)`: dead code in the source, kept here
            (at' e.expr e.idx).bind fun _ => .ok (none, { e with err := true })

/-- the loop of `scan`; `none` = an error was returned -/
def scanLoopG : Nat → ES → List Tok → Out (Option (List Tok))
  | 0, _, acc => .ok (some acc)
  | fuel+1, e, acc =>
    if !esMore e then .ok (some acc) else
    (skipWhitespace e).bind fun e =>
      if !esMore e then .ok (some acc) else
      (parseToken e).bind fun (t, e) =>
        if e.err then .ok none else
        match t with
        | none => .ok none
        | some ts => scanLoopG fuel e (acc ++ ts)

/-- `scan`: every iteration consumes at least one byte of a buffer that never grows, so `2·|s|+2` iterations suffice -/
def scanG (s : Bytes) : Out (Option (List Tok)) := scanLoopG (2 * s.length + 2) ⟨s, 0, false⟩ []

/-- `parse`, Go-shaped throughout -/
def parseG (s : Bytes) : Out (Option Node) :=
  if s.isEmpty then .ok none else
  (scanG s).bind fun r =>
    match r with
    | none => .ok none
    | some ts => parseTokens ts

end Spdx.G
