/-
Model/GoApi — "layer G", part 6: `Satisfies` end to end, composed of the Go-shaped parts — the scanner with its private
buffer and the cursor parser (`parseG`), the loop and the fill of `stringsToNodes`, the in-place `sortAndDedup` whose
returned slice is DISCARDED, the heap-level expansion with the in-place sorts of `deepSort` and the dereferences its
comparators perform, and the verdict loop over the array `sortAndDedup` left behind.  Every partial operation on the way
(index, slice, write through an index, dereference of a possibly-nil pointer) is a possible `panic`.
-/
import SpdxVerif.Model.GoSlices
import SpdxVerif.Model.GoHeap
import SpdxVerif.Model.GoMatch
namespace Spdx.G

/-- `stringsToNodes`: the loop returns at the first entry that does not parse or is an expression -/
def stringsToNodesG : List Bytes → Out (Except SatErr (List Node))
  | [] => .ok (.ok [])
  | s :: ss => (parseG s).bind fun r =>
    match r with
    | none => .ok (.error .badEntry)
    | some n =>
      if n.isLeaf then (stringsToNodesG ss).bind fun rest => .ok (rest.map (n :: ·))
      else .ok (.error .compoundEntry)

/-- `n.expand(true)`: a term is returned as it is; an expression is expanded on the heap, its alternatives are sorted in
    place, every node's string is dereferenced by the comparators, and the alternatives are sorted -/
def expandG (grow : Nat → Nat → Nat) (n : Node) : Out (List (List Node)) :=
  if n.isLeaf then .ok [[n]] else
  (mapM' keysG (H.expandTermRead grow n)).bind fun _ =>
  (deepSortGuardG (H.expandTermRead grow n)).bind fun _ =>
  .ok (H.expandReadSorted grow n)

/-- `Satisfies` -/
def satisfiesG (grow : Nat → Nat → Nat) (e : Bytes) (allowed : List Bytes) : Out (Except SatErr Bool) :=
  (parseG e).bind fun r =>
  match r with
  | none => .ok (.error .badExpr)
  | some n =>
    if allowed.isEmpty then .ok (.error .emptyList) else
    (stringsToNodesG allowed).bind fun r2 =>
    match r2 with
    | .error x => .ok (.error x)
    | .ok A =>
      (fillG A.length (List.replicate A.length none) A 0).bind fun _ =>
      (sortAndDedupG A).bind fun sd =>          -- `sortAndDedup(allowedNodes)`: result discarded, the array `sd.1` is used
      (expandG grow n).bind fun ex =>
      (anyG (fun part => isCompatibleG part sd.1) ex).bind fun v =>   -- the verdict loop, matching with pointers (part 7)
      .ok (.ok v)

/-- `ExtractLicenses`: parse, `expand(true)` on the heap, `flatten`, one dereference per node, `removeDuplicateStrings` -/
def extractFullG (grow : Nat → Nat → Nat) (e : Bytes) : Out (Option (List Bytes)) :=
  (parseG e).bind fun r =>
  match r with
  | none => .ok none
  | some n =>
    (expandG grow n).bind fun ex =>
    (mapM' renderG ex.flatten).bind fun ls => .ok (some (dedup [] ls))

/-- the loop of `ValidateLicenses`: the entries that do not parse, in order -/
def invalidG : List Bytes → Out (List Bytes)
  | [] => .ok []
  | s :: ss => (parseG s).bind fun r => (invalidG ss).bind fun rest =>
    .ok (match r with | none => s :: rest | some _ => rest)

/-- `ValidateLicenses` -/
def validateG (ls : List Bytes) : Out (Bool × List Bytes) :=
  (invalidG ls).bind fun bad => .ok (bad.isEmpty, bad)

end Spdx.G
