/-
Model/Basic — bytes, character classes, constants, table lookup.
Core-only (no Mathlib): everything under Model/ is also linked into the `driver` executable.

Go strings are byte strings; a byte is modelled as a `Nat` (the harness only ever sends values < 256,
the theorems hold for all lists).
-/
import SpdxVerif.Gen.Tables
namespace Spdx

abbrev Bytes := List Nat

/-- ASCII bytes of a Lean string literal (used for constants and examples only). -/
def str (s : String) : Bytes := s.toUTF8.toList.map (·.toNat)

/-! ## character classes -/

/-- the class `[A-Za-z0-9-.]` of `readID` -/
def isIdChar (c : Nat) : Bool :=
  (65 ≤ c && c ≤ 90) || (97 ≤ c && c ≤ 122) || (48 ≤ c && c ≤ 57) || c == 45 || c == 46

/-- the class `[ ]` of `skipWhitespace` -/
def isSp (c : Nat) : Bool := c == 32

/-- ASCII lower-casing; `strings.EqualFold` restricted to ASCII (table ids and id bytes are ASCII) -/
def lowerC (c : Nat) : Nat := if 65 ≤ c ∧ c ≤ 90 then c + 32 else c
def lower (s : Bytes) : Bytes := s.map lowerC
/-- `strings.EqualFold` on ASCII: byte-wise, stops at the first difference -/
def foldEq : Bytes → Bytes → Bool
  | [], [] => true
  | a :: as, b :: bs => Nat.beq (lowerC a) (lowerC b) && foldEq as bs
  | _, _ => false

/-- `inLicenseList`: first entry equal up to ASCII case; returns the table's spelling -/
def lookup (tbl : List Bytes) (w : Bytes) : Option Bytes := tbl.find? (fun l => foldEq l w)

/-! ## literals of the source (pinned to the source by `Props/Consts.lean`) -/
def sufOnly : Bytes := [45,111,110,108,121]                                    -- "-only"
def sufOrLater : Bytes := [45,111,114,45,108,97,116,101,114]                   -- "-or-later"
def docRefPrefix : Bytes := [68,111,99,117,109,101,110,116,82,101,102,45]      -- "DocumentRef-"
def licRefPrefix : Bytes := [76,105,99,101,110,115,101,82,101,102,45]          -- "LicenseRef-"
def bPlus : Bytes := [43]                                                      -- "+"
def bWith : Bytes := [32,87,73,84,72,32]                                       -- " WITH "
def bColon : Bytes := [58]                                                     -- ":"

def stripSuffix? (w suf : Bytes) : Option Bytes :=
  if suf.isSuffixOf w then some (w.take (w.length - suf.length)) else none

end Spdx
