/-
Model/Expand — rendering (`reconstructedLicenseString`), sorting (`sortLicenses`, `deepSort`) and the
OR-of-ANDs expansion (`expand`, `expandOr`, `expandOrTerm`, `expandAnd`, `expandAndTerm`,
`appendTerms`, `mergeTerms`) of spdxexp/satisfies.go and node.go.
-/
import SpdxVerif.Model.Parse
namespace Spdx

/-- `reconstructedLicenseString` (nil for expression nodes: modelled as the empty string, never used) -/
def render : Node → Bytes
  | .lic id plus exc => id ++ (if plus then bPlus else []) ++ (match exc with | some e => bWith ++ e | none => [])
  | .ref doc id => (match doc with | some d => docRefPrefix ++ d ++ bColon | none => []) ++ licRefPrefix ++ id
  | _ => []

def Node.isLeaf : Node → Bool
  | .lic .. => true | .ref .. => true | _ => false

/-- byte-wise lexicographic `<` (Go string comparison) -/
def bytesLt : Bytes → Bytes → Bool
  | [], [] => false
  | [], _ :: _ => true
  | _ :: _, [] => false
  | a :: as, b :: bs => if a < b then true else if b < a then false else bytesLt as bs
def bytesLe (a b : Bytes) : Bool := !bytesLt b a

/-- the comparator of `deepSort`'s outer sort: element-wise, a proper prefix is smaller -/
def listLt : List Bytes → List Bytes → Bool
  | [], [] => false
  | [], _ :: _ => true
  | _ :: _, [] => false
  | a :: as, b :: bs => if bytesLt a b then true else if bytesLt b a then false else listLt as bs

def insertBy {α} (le : α → α → Bool) (x : α) : List α → List α
  | [] => [x]
  | y :: ys => if le x y then x :: y :: ys else y :: insertBy le x ys
/-- insertion sort; stands for Go's `sort.Slice` — elements that compare equal render equally, so
    the rendered result does not depend on the sorting algorithm -/
def sortBy {α} (le : α → α → Bool) : List α → List α
  | [] => []
  | x :: xs => insertBy le x (sortBy le xs)

def sortLeaves (l : List Node) : List Node := sortBy (fun a b => bytesLe (render a) (render b)) l
def deepSort (ll : List (List Node)) : List (List Node) :=
  sortBy (fun a b => !listLt (b.map render) (a.map render)) (ll.map sortLeaves)

/-- `appendTerms`: for each right alternative, each left alternative extended by it -/
def appendTerms (L R : List (List Node)) : List (List Node) :=
  R.flatMap (fun r => L.map (fun l => l ++ r))
/-- `mergeTerms`: every right alternative appended to every (running) left alternative -/
def mergeTerms (L R : List (List Node)) : List (List Node) :=
  R.foldl (fun res r => res.map (fun l => l ++ r)) L

/-- `expandOrTerm` and `expandAndTerm` (after the repair they coincide): a leaf is one alternative with one
    term; an OR concatenates the alternatives of its operands (`expandOr`); an AND combines them with
    `appendTerms` when either side has more than one alternative and with `mergeTerms` otherwise (`expandAnd`). -/
def expandTerm : Node → List (List Node)
  | .lic id p e => [[.lic id p e]]
  | .ref d i => [[.ref d i]]
  | .and l r =>
    let L := expandTerm l
    let R := expandTerm r
    if L.length > 1 ∨ R.length > 1 then appendTerms L R else mergeTerms L R
  | .or l r => expandTerm l ++ expandTerm r

/-- `expand(true)` -/
def expand (n : Node) : List (List Node) :=
  if n.isLeaf then [[n]] else deepSort (expandTerm n)

end Spdx
