/-
Model/GoSlices — "layer G", part 4: the index and slice expressions behind the parser (spdxexp/satisfies.go), written
the way the Go source writes them: slices are lists, `x[i]` is `idx` (panic when `i ≥ len`), `x[i] = v` is `setIdx`
(panic when `i ≥ len`), `x[:n]` is `slicePrefix` (panic when `n > len`; Go allows up to the capacity, so this is the
stricter reading), `*n.reconstructedLicenseString()` is `renderG` (panic on an expression node).

  sortAndDedup  : `nodes[curr-1]`, `nodes[curr]`, `nodes[prev] = nodes[curr]`, `nodes[:prev]`
  deepSort      : the guard `len(nodes2d) == 1 && len(nodes2d[0]) <= 1`; the comparator's `nodes2d[i][k]`, `nodes2d[j][k]`
                  (`k` ranges over `nodes2d[j]`, and is tested against `len(nodes2d[i])` first)
  mergeTerms    : `results[j] = append(l, r...)` inside `for j, l := range results`
  stringsToNodes: `nodes[i] = node` inside `for i, s := range licenses` over `make([]*node, len(licenses))`
The two indices that `sort.Slice` hands to a comparator are below the length by the contract of package sort
(trusted, see DESIGN §7).
-/
import SpdxVerif.Model.GoDeref
import SpdxVerif.Model.Api
namespace Spdx.G

def idx {α} (l : List α) (i : Nat) : Out α :=
  match l[i]? with
  | some x => .ok x
  | none => .panic

def setIdx {α} (l : List α) (i : Nat) (x : α) : Out (List α) :=
  if i < l.length then .ok (l.set i x) else .panic

def slicePrefix {α} (l : List α) (n : Nat) : Out (List α) :=
  if n ≤ l.length then .ok (l.take n) else .panic

/-- the loop of `sortAndDedup`:
    `for curr := 1; curr < len(nodes); curr++ { if *nodes[curr-1].rLS() != *nodes[curr].rLS() { nodes[prev] = nodes[curr]; prev++ } }`
    (`fuel` only makes the recursion structural; it is `len(nodes)` at the call) -/
def dedupLoopG : Nat → List Node → Nat → Nat → Out (List Node × Nat)
  | 0, nodes, prev, _ => .ok (nodes, prev)
  | fuel + 1, nodes, prev, curr =>
    if curr < nodes.length then
      (idx nodes (curr - 1)).bind fun a =>
      (idx nodes curr).bind fun b =>
      (renderG a).bind fun ka =>
      (renderG b).bind fun kb =>
        if ka != kb then
          (setIdx nodes prev b).bind fun nodes' => dedupLoopG fuel nodes' (prev + 1) (curr + 1)
        else dedupLoopG fuel nodes prev (curr + 1)
    else .ok (nodes, prev)

/-- `sortAndDedup`: the array after the call (what `Satisfies` goes on to use, since it discards the result) and the
    returned slice `nodes[:prev]` -/
def sortAndDedupG (nodes : List Node) : Out (List Node × List Node) :=
  if nodes.length ≤ 1 then .ok (nodes, nodes) else
  (keysG nodes).bind fun _ =>                       -- the comparator of sortLicenses dereferences every node's string
  let s := sortLeaves nodes
  (dedupLoopG s.length s 1 1).bind fun r =>
  (slicePrefix r.1 r.2).bind fun front => .ok (r.1, front)

/-- the comparator of `deepSort`'s outer sort, from position `k` on:
    `for k := range nodes2d[j] { if k >= len(nodes2d[i]) { return true }; i := *nodes2d[i][k].rLS(); j := *nodes2d[j][k].rLS(); if i != j { return i < j } }; return false` -/
def lessG : Nat → List Node → List Node → Nat → Out Bool
  | 0, _, _, _ => .ok false
  | fuel + 1, a, b, k =>
    if k < b.length then
      if k ≥ a.length then .ok true else
      (idx a k).bind fun x =>
      (idx b k).bind fun y =>
      (renderG x).bind fun kx =>
      (renderG y).bind fun ky =>
        if kx != ky then .ok (bytesLt kx ky) else lessG fuel a b (k + 1)
    else .ok false

/-- the early return of `deepSort`: `len(nodes2d) == 0 || len(nodes2d) == 1 && len(nodes2d[0]) <= 1` -/
def deepSortGuardG (ll : List (List Node)) : Out Bool :=
  if ll.length == 0 then .ok true
  else if ll.length == 1 then (idx ll 0).bind fun h => .ok (decide (h.length ≤ 1))
  else .ok false

/-- the inner loop of `mergeTerms`: `for j, l := range results { results[j] = append(l, r...) }`
    (the range expression is evaluated once: `n` is the length at loop entry) -/
def mergeInnerG : Nat → List (List Node) → List Node → Nat → Out (List (List Node))
  | 0, results, _, _ => .ok results
  | fuel + 1, results, r, j =>
    (idx results j).bind fun l =>
    (setIdx results j (l ++ r)).bind fun results' => mergeInnerG fuel results' r (j + 1)

/-- `mergeTerms` -/
def mergeTermsG : List (List Node) → List (List Node) → Out (List (List Node))
  | results, [] => .ok results
  | results, r :: rs => (mergeInnerG results.length results r 0).bind fun res => mergeTermsG res rs

/-- the fill loop of `stringsToNodes`: `nodes := make([]*node, len(licenses)); for i, s := range licenses { …; nodes[i] = node }` -/
def fillG {α} : Nat → List (Option α) → List α → Nat → Out (List (Option α))
  | 0, nodes, _, _ => .ok nodes
  | _ + 1, nodes, [], _ => .ok nodes
  | fuel + 1, nodes, x :: xs, i => (setIdx nodes i (some x)).bind fun nodes' => fillG fuel nodes' xs (i + 1)

end Spdx.G
