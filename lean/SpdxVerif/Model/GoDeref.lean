/-
Model/GoDeref — "layer G", part 3: the dereferences behind the parser.  `reconstructedLicenseString()` returns nil for
expression nodes; `ExtractLicenses`, `sortAndDedup`, `deepSort` and the comparator of `sortLicenses` dereference its
result without a nil check.  Here that dereference is explicit: `renderG` is `panic` on an expression node.
-/
import SpdxVerif.Model.GoScan
namespace Spdx.G

/-- `*n.reconstructedLicenseString()` -/
def renderG (n : Node) : Out Bytes :=
  if n.isLeaf then .ok (render n) else .panic

def mapM' {α β} (f : α → Out β) : List α → Out (List β)
  | [] => .ok []
  | x :: xs => (f x).bind fun y => (mapM' f xs).bind fun ys => .ok (y :: ys)

/-- the string keys that `sortAndDedup` / `deepSort` compute for the nodes they compare (one dereference per node) -/
def keysG (nodes : List Node) : Out (List Bytes) := mapM' renderG nodes

/-- `ExtractLicenses` from the tree on: expand, flatten, dereference every node's string, de-duplicate -/
def extractG (n : Node) : Out (List Bytes) :=
  (mapM' renderG (expand n).flatten).bind fun ls => .ok (dedup [] ls)

/-- the dereferences `Satisfies` performs before matching: the keys of the allowed nodes (sort + dedup) and of every
    alternative of the expansion (deepSort) -/
def satisfiesKeysG (n : Node) (allowed : List Node) : Out Unit :=
  (keysG allowed).bind fun _ => (mapM' keysG (expand n)).bind fun _ => .ok ()

end Spdx.G
