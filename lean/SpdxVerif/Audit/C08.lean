import SpdxVerif.Props.C08
import SpdxVerif.Props.Consts
import SpdxVerif.Props.C08Text
#print axioms Spdx.C08.only_shares_group
#print axioms Spdx.C08.no_active_base_of_orLater
#print axioms Spdx.C08.normalize_only
#print axioms Spdx.C08.normalize_plus_listed
#print axioms Spdx.C08.normalize_orLater_unlisted
#print axioms Spdx.C08.pos_orLater
#print axioms Spdx.ConstsPin.normalizeLicense_literals
#print axioms Spdx.ConstsPin.simplifyLicense_literals
#print axioms Spdx.C08.plus_orLater_same_tree
#print axioms Spdx.C08.plus_orLater_interchangeable
#print axioms Spdx.C08.plus_orLater_allowed_entry
#print axioms Spdx.C08.only_interchangeable
#print axioms Spdx.C08.only_interchangeable_head
#print axioms Spdx.C08.only_allowed_entry
#print axioms Spdx.C08.active_all_spellings
#print axioms Spdx.C08.active_suffixed_clean
#print axioms Spdx.orLater_bases_free
#print axioms Spdx.only_bases_ok
#print axioms Spdx.D_swap
#print axioms Spdx.matchLeaf_idEquiv
