import SpdxVerif.Props.C08
import SpdxVerif.Props.Consts
#print axioms Spdx.C08.only_shares_group
#print axioms Spdx.C08.no_active_base_of_orLater
#print axioms Spdx.C08.normalize_only
#print axioms Spdx.C08.normalize_plus_listed
#print axioms Spdx.C08.normalize_orLater_unlisted
#print axioms Spdx.C08.pos_orLater
#print axioms Spdx.ConstsPin.normalizeLicense_literals
#print axioms Spdx.ConstsPin.simplifyLicense_literals
