import SpdxVerif.Props.C04
#print axioms Spdx.C04.validate_spec
#print axioms Spdx.C04.validate_true_iff
#print axioms Spdx.C04.validate_mem
#print axioms Spdx.C04.validate_sublist
#print axioms Spdx.C04.extract_err_iff
#print axioms Spdx.C04.toNodes_ok_iff
#print axioms Spdx.C04.satisfies_err_iff
#print axioms Spdx.C04.satisfies_ok_of_valid
