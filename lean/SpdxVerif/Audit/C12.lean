import SpdxVerif.Props.C12Valid
import SpdxVerif.Props.C12Grammar
#print axioms Spdx.C12.active_eq_json
#print axioms Spdx.C12.deprecated_eq_json
#print axioms Spdx.C12.exceptions_eq_json
#print axioms Spdx.C12.get_licenses_go_exact
#print axioms Spdx.C12.get_deprecated_go_exact
#print axioms Spdx.C12.get_exceptions_go_exact
#print axioms Spdx.C12.lists_fold_unique
#print axioms Spdx.C12.lists_ascii
#print axioms Spdx.C12.listed_license_valid
#print axioms Spdx.C12.exception_only_after_with
#print axioms Spdx.C12.exception_only_after_with_grammar
#print axioms Spdx.C12.exception_word_is_exception_token
#print axioms Spdx.C12.D_head_not_exc
#print axioms Spdx.C12.valid_exception_only_after_with
