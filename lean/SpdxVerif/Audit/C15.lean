import SpdxVerif.Props.C15
import SpdxVerif.Props.Consts
#print axioms Spdx.C15.scan_error_located
#print axioms Spdx.C15.unknown_license_located
#print axioms Spdx.C15.expected_id_located
#print axioms Spdx.C15.parse_error_located
#print axioms Spdx.ConstsPin.normalizeLicense_ints
#print axioms Spdx.ConstsPin.readID_literals
