import SpdxVerif.Props.C03
#print axioms Spdx.C03.api_total
