import SpdxVerif.Props.C03
#print axioms Spdx.C03.g_parseTokens_never_panics
#print axioms Spdx.C03.g_parse_never_panics
#print axioms Spdx.C03.g_helpers_never_panic
#print axioms Spdx.C03.api_total
#print axioms Spdx.C03.index_sites_accounted
#print axioms Spdx.C03.slice_sites_accounted
#print axioms Spdx.C03.no_type_assertions_or_divisions
#print axioms Spdx.C03.g_scan_never_panics
#print axioms Spdx.C03.g_parse_full_never_panics
#print axioms Spdx.C03.g_extract_never_derefs_nil
#print axioms Spdx.C03.g_satisfies_never_derefs_nil
