import SpdxVerif.Props.C06
import SpdxVerif.Props.Consts
#print axioms Spdx.C06.extract_eq
#print axioms Spdx.C06.extract_nodup
#print axioms Spdx.C06.extract_mem
#print axioms Spdx.C06.self_satisfies
#print axioms Spdx.ConstsPin.reconstructed_literals
#print axioms Spdx.C06.render_roundtrip
#print axioms Spdx.C06.extract_self
#print axioms Spdx.C06.satisfies_own_terms
#print axioms Spdx.listed_foldClean
#print axioms Spdx.C09.deprecated_have_no_suffix
#print axioms Spdx.C09.lists_fold_distinct
