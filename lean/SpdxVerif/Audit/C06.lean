import SpdxVerif.Props.C06
import SpdxVerif.Props.Consts
#print axioms Spdx.C06.extract_eq
#print axioms Spdx.C06.extract_nodup
#print axioms Spdx.C06.extract_mem
#print axioms Spdx.C06.self_satisfies
#print axioms Spdx.ConstsPin.reconstructed_literals
