import SpdxVerif.Props.C02
import SpdxVerif.Props.Consts
import SpdxVerif.Props.C02Spec
import SpdxVerif.Props.C03Match
#print axioms Spdx.C02.matchLeaf_symm
#print axioms Spdx.C02.matchLeaf_refl
#print axioms Spdx.C02.lic_never_matches_ref
#print axioms Spdx.C02.ref_match_iff
#print axioms Spdx.C02.exception_gate
#print axioms Spdx.C02.same_id_matches
#print axioms Spdx.C02.version_rule
#print axioms Spdx.C02.unranged_matches_only_itself
#print axioms Spdx.C02.orLater_counts_as_plus
#print axioms Spdx.C02.pos_ignores_orLater
#print axioms Spdx.ConstsPin.simplifyLicense_literals
#print axioms Spdx.ConstsPin.parseLicense_literals
#print axioms Spdx.C02.matchLeaf_eq_spec
#print axioms Spdx.C02.matchLeaf_eq_spec_parsed
#print axioms Spdx.render_fold_inj
#print axioms Spdx.parse_leavesOK
#print axioms Spdx.C03.g_match_refines
