import SpdxVerif.Props.C01
import SpdxVerif.Props.Consts
#print axioms Spdx.C01.verdict_eq_eval
#print axioms Spdx.C01.verdictBy_eq_eval
#print axioms Spdx.C01.verdict_iff_alternative_covered
#print axioms Spdx.C01.verdict_and
#print axioms Spdx.C01.verdict_or
#print axioms Spdx.C01.satisfies_spec
#print axioms Spdx.ConstsPin.expandAnd_ints
