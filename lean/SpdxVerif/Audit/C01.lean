import SpdxVerif.Props.C01
import SpdxVerif.Props.Consts
import SpdxVerif.Props.C01Text
import SpdxVerif.Props.C01Heap
#print axioms Spdx.C01.verdict_eq_eval
#print axioms Spdx.C01.verdictBy_eq_eval
#print axioms Spdx.C01.verdict_iff_alternative_covered
#print axioms Spdx.C01.verdict_and
#print axioms Spdx.C01.verdict_or
#print axioms Spdx.C01.satisfies_spec
#print axioms Spdx.ConstsPin.expandAnd_ints
#print axioms Spdx.C01.parse_rendered
#print axioms Spdx.C01.canonical_rewrite
#print axioms Spdx.C01.satisfies_rendered
#print axioms Spdx.C01.or_and_text
#print axioms Spdx.C01.and_or_text
#print axioms Spdx.C01.paren_or_and_text
#print axioms Spdx.C07.satisfies_eq
#print axioms Spdx.C01.heap_expand_refines
#print axioms Spdx.C01.heap_expand_refines_any_heap
#print axioms Spdx.C01.heap_expand_separated
#print axioms Spdx.C01.heap_expand_sorted_refines
#print axioms Spdx.C01.heap_expand_eq_expand
#print axioms Spdx.C01.expansion_allocs_exact
