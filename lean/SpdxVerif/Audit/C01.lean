import SpdxVerif.Props.C01
#print axioms Spdx.C01.verdict_eq_eval
#print axioms Spdx.C01.verdictBy_eq_eval
#print axioms Spdx.C01.verdict_iff_alternative_covered
#print axioms Spdx.C01.verdict_and
#print axioms Spdx.C01.verdict_or
#print axioms Spdx.C01.satisfies_spec
