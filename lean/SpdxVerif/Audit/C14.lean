import SpdxVerif.Props.C14Cost
import SpdxVerif.Props.C14Poly
import SpdxVerif.Props.C14
import SpdxVerif.Props.C14Heap
#print axioms Spdx.C14.expandTerm_length
#print axioms Spdx.C14.expand_length
#print axioms Spdx.C14.alts_andOfOrs
#print axioms Spdx.C14.leafCount_andOfOrs
#print axioms Spdx.C14.expand_andOfOrs_length
#print axioms Spdx.C14.alts_le_pow
#print axioms Spdx.C14.scan_tokens_le
#print axioms Spdx.C14.leafCount_le_tokens
#print axioms Spdx.C14.slots_le
#print axioms Spdx.C14.cost_inputs_bounded
#print axioms Spdx.C14.and_only_linear
#print axioms Spdx.C14.alts_le_pow_rank
#print axioms Spdx.C14.orRank_dnfShaped
#print axioms Spdx.C14.orRank_andOfOrs
#print axioms Spdx.C14.cost_polynomial_in_rank
#print axioms Spdx.C14.dnf_shaped_quadratic
#print axioms Spdx.C14.orRank_le_lparens
#print axioms Spdx.C14.cost_polynomial_in_parens
#print axioms Spdx.C14.heap_allocs_le
#print axioms Spdx.C14.heap_appendTerms_allocs
#print axioms Spdx.C14.allocBound_le
#print axioms Spdx.C14.heap_allocs_le_terms_alts
