import SpdxVerif.Props.C14
#print axioms Spdx.C14.expandTerm_length
#print axioms Spdx.C14.expand_length
#print axioms Spdx.C14.alts_andOfOrs
#print axioms Spdx.C14.leafCount_andOfOrs
#print axioms Spdx.C14.expand_andOfOrs_length
#print axioms Spdx.C14.alts_le_pow
