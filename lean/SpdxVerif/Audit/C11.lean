import SpdxVerif.Props.C11
#print axioms Spdx.C11.ranges_listed
#print axioms Spdx.C11.ranges_no_duplicates
#print axioms Spdx.C11.families_one_key
#print axioms Spdx.C11.family_keys_distinct
#print axioms Spdx.C11.families_ascending
#print axioms Spdx.C11.coverage_complete
#print axioms Spdx.C11.positions_exact
#print axioms Spdx.C11.plus_reach_pos
#print axioms Spdx.C11.plus_never_leaves_table
