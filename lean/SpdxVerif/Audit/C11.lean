import SpdxVerif.Props.C11
import SpdxVerif.Props.C11Oracle
#print axioms Spdx.C11.ranges_listed
#print axioms Spdx.C11.ranges_no_duplicates
#print axioms Spdx.C11.families_one_key
#print axioms Spdx.C11.family_keys_distinct
#print axioms Spdx.C11.families_ascending
#print axioms Spdx.C11.coverage_complete
#print axioms Spdx.C11.positions_exact
#print axioms Spdx.C11.plus_reach_pos
#print axioms Spdx.C11.plus_never_leaves_table
#print axioms Spdx.C11.reach_agree
#print axioms Spdx.C11.plus_reach_oracle
#print axioms Spdx.C11.plus_never_crosses_family
#print axioms Spdx.C11.range_ids_are_id_bytes
#print axioms Spdx.C11.foldEq_plus_noplus
#print axioms Spdx.C11.cases_agree
#print axioms Spdx.C11.noplus_match_oracle
#print axioms Spdx.C11.bothplus_match_oracle
