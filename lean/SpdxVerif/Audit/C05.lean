import SpdxVerif.Props.C05
#print axioms Spdx.C05.parseTokens_iff
#print axioms Spdx.C05.accepts_iff
#print axioms Spdx.C05.D_unique
