import SpdxVerif.Props.C05
import SpdxVerif.Props.Consts
import SpdxVerif.Props.C01Text
import SpdxVerif.Props.C05Text
#print axioms Spdx.C05.parseTokens_iff
#print axioms Spdx.C05.accepts_iff
#print axioms Spdx.C05.D_unique
#print axioms Spdx.ConstsPin.readOperator_literals
#print axioms Spdx.ConstsPin.readOperator_ints
#print axioms Spdx.ConstsPin.readDocumentRef_literals
#print axioms Spdx.ConstsPin.readLicenseRef_literals
#print axioms Spdx.ConstsPin.readID_literals
#print axioms Spdx.ConstsPin.isIdChar_is_the_class
#print axioms Spdx.ConstsPin.skipWhitespace_literals
#print axioms Spdx.ConstsPin.normalizeLicense_literals
#print axioms Spdx.ConstsPin.normalizeLicense_ints
#print axioms Spdx.ConstsPin.parseLicense_literals
#print axioms Spdx.ConstsPin.parseWith_literals
#print axioms Spdx.ConstsPin.parseLicenseRef_literals
#print axioms Spdx.ConstsPin.parseParen_literals
#print axioms Spdx.ConstsPin.parseAnd_literals
#print axioms Spdx.ConstsPin.parseExpression_literals
#print axioms Spdx.ConstsPin.parseAtom_literals
#print axioms Spdx.ConstsPin.isAnd_literals
#print axioms Spdx.ConstsPin.isOr_literals
#print axioms Spdx.C01.parse_rendered
#print axioms Spdx.lexeme_word
#print axioms Spdx.scan_seqOK
#print axioms Spdx.scan_append
#print axioms Spdx.C05.accepts_spaced_iff
#print axioms Spdx.C05.parse_spaced
#print axioms Spdx.C05.accepts_layout_iff
#print axioms Spdx.C05.parse_layout
#print axioms Spdx.C05.layout_irrelevant
#print axioms Spdx.C05.word_recognised_iff
#print axioms Spdx.C05.word_plus_recognised_iff
#print axioms Spdx.toks_spaced
#print axioms Spdx.toks_laidOut
