import SpdxVerif.Props.C07
#print axioms Spdx.C07.verdict_congr
#print axioms Spdx.C07.verdict_perm
#print axioms Spdx.C07.verdict_set
#print axioms Spdx.C07.verdict_dup
#print axioms Spdx.C07.verdict_mono
#print axioms Spdx.C07.sortAndDedupArray_subset
#print axioms Spdx.C07.verdict_sortAndDedup_le
