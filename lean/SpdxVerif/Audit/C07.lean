import SpdxVerif.Props.C07
import SpdxVerif.Props.C07List
#print axioms Spdx.C07.verdict_congr
#print axioms Spdx.C07.verdict_perm
#print axioms Spdx.C07.verdict_set
#print axioms Spdx.C07.verdict_dup
#print axioms Spdx.C07.verdict_mono
#print axioms Spdx.C07.sortAndDedupArray_subset
#print axioms Spdx.C07.verdict_sortAndDedup_le
#print axioms Spdx.C07.satisfies_eq
#print axioms Spdx.C07.satisfies_denotes
#print axioms Spdx.C07.satisfies_same_entries
#print axioms Spdx.C07.satisfies_perm
#print axioms Spdx.C07.satisfies_repeat
#print axioms Spdx.C07.satisfies_respell
#print axioms Spdx.C07.leafOf_parens
#print axioms Spdx.C07.leafOf_spaces
#print axioms Spdx.C07.satisfies_mono
#print axioms Spdx.sortAndDedupArray_mem
#print axioms Spdx.render_inj
