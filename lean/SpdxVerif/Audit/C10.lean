import SpdxVerif.Props.C10
import SpdxVerif.Props.Consts
#print axioms Spdx.C10.verdict_of_eval_eq
#print axioms Spdx.C10.verdict_and
#print axioms Spdx.C10.verdict_or
#print axioms Spdx.C10.and_comm
#print axioms Spdx.C10.or_comm
#print axioms Spdx.C10.and_assoc
#print axioms Spdx.C10.or_assoc
#print axioms Spdx.C10.and_idem
#print axioms Spdx.C10.or_idem
#print axioms Spdx.C10.absorb_and
#print axioms Spdx.C10.absorb_or
#print axioms Spdx.C10.distrib_and_or
#print axioms Spdx.C10.distrib_or_and
#print axioms Spdx.C10.congr_and
#print axioms Spdx.C10.congr_or
#print axioms Spdx.ConstsPin.expandAnd_ints
#print axioms Spdx.ConstsPin.skipWhitespace_literals
