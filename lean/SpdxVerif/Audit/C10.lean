import SpdxVerif.Props.C10
import SpdxVerif.Props.Consts
import SpdxVerif.Props.C10Text
#print axioms Spdx.C10.verdict_of_eval_eq
#print axioms Spdx.C10.verdict_and
#print axioms Spdx.C10.verdict_or
#print axioms Spdx.C10.and_comm
#print axioms Spdx.C10.or_comm
#print axioms Spdx.C10.and_assoc
#print axioms Spdx.C10.or_assoc
#print axioms Spdx.C10.and_idem
#print axioms Spdx.C10.or_idem
#print axioms Spdx.C10.absorb_and
#print axioms Spdx.C10.absorb_or
#print axioms Spdx.C10.distrib_and_or
#print axioms Spdx.C10.distrib_or_and
#print axioms Spdx.C10.congr_and
#print axioms Spdx.C10.congr_or
#print axioms Spdx.ConstsPin.expandAnd_ints
#print axioms Spdx.ConstsPin.skipWhitespace_literals
#print axioms Spdx.C10.parens_irrelevant
#print axioms Spdx.C10.outer_spaces_irrelevant
#print axioms Spdx.C10.satisfies_andText
#print axioms Spdx.C10.satisfies_orText
#print axioms Spdx.C10.satisfies_of_eval_eq
#print axioms Spdx.C10.extract_set_of_leaves
#print axioms Spdx.C10.leaves_distrib
#print axioms Spdx.C10.toks_space_run
#print axioms Spdx.C10.toks_space_after_lparen
#print axioms Spdx.C10.toks_space_before_rparen
#print axioms Spdx.C10.respacing_irrelevant
