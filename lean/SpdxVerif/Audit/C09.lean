import SpdxVerif.Props.C09
import SpdxVerif.Props.Consts
import SpdxVerif.Props.C09Text
#print axioms Spdx.C09.lookup_fold
#print axioms Spdx.C09.lookup_canonical
#print axioms Spdx.C09.licenseLookup_fold
#print axioms Spdx.C09.deprecated_have_no_suffix
#print axioms Spdx.C09.lists_fold_distinct
#print axioms Spdx.C09.normalize_caseVariant
#print axioms Spdx.C09.normalize_tokens_listed
#print axioms Spdx.ConstsPin.readOperator_literals
#print axioms Spdx.ConstsPin.readDocumentRef_literals
#print axioms Spdx.ConstsPin.readLicenseRef_literals
#print axioms Spdx.C09.tree_caseVariant_head
#print axioms Spdx.C09.tree_caseVariant_ctx
#print axioms Spdx.C09.caseVariant_expression
#print axioms Spdx.C09.caseVariant_allowed_entry
#print axioms Spdx.C09.extract_canonical
#print axioms Spdx.C09.active_and_exceptions_are_id_bytes
#print axioms Spdx.listed_foldClean
