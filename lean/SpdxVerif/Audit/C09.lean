import SpdxVerif.Props.C09
import SpdxVerif.Props.Consts
#print axioms Spdx.C09.lookup_fold
#print axioms Spdx.C09.lookup_canonical
#print axioms Spdx.C09.licenseLookup_fold
#print axioms Spdx.C09.deprecated_have_no_suffix
#print axioms Spdx.C09.lists_fold_distinct
#print axioms Spdx.C09.normalize_caseVariant
#print axioms Spdx.C09.normalize_tokens_listed
#print axioms Spdx.ConstsPin.readOperator_literals
#print axioms Spdx.ConstsPin.readDocumentRef_literals
#print axioms Spdx.ConstsPin.readLicenseRef_literals
