import SpdxVerif.Props.C13
#print axioms Spdx.C13.no_shared_mutable_state
#print axioms Spdx.C13.no_concurrency_primitives
#print axioms Spdx.C13.no_output
#print axioms Spdx.C13.caller_slices_untouched
#print axioms Spdx.C13.schedule_independent
#print axioms Spdx.C13.schedules_agree
#print axioms Spdx.C13.satisfies_deterministic
#print axioms Spdx.C13.extract_deterministic
#print axioms Spdx.C13.validate_deterministic
