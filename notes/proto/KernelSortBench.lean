import TablesN
open TN
def lowerC (c : Nat) : Nat := if 65 ≤ c ∧ c ≤ 90 then c + 32 else c
def enc : List Nat → Nat
  | [] => 1
  | c :: cs => lowerC c + 256 * enc cs
def keys : List Nat := (active ++ deprecated ++ exceptions).map enc
-- merge sort with fuel
def merge : Nat → List Nat → List Nat → List Nat
  | 0, xs, ys => xs ++ ys
  | _+1, [], ys => ys
  | _+1, xs, [] => xs
  | f+1, x :: xs, y :: ys => if Nat.ble x y then x :: merge f xs (y :: ys) else y :: merge f (x :: xs) ys
def split : List Nat → List Nat × List Nat
  | [] => ([], [])
  | [x] => ([x], [])
  | x :: y :: r => let p := split r; (x :: p.1, y :: p.2)
def msort : Nat → List Nat → List Nat
  | 0, l => l
  | _+1, [] => []
  | _+1, [x] => [x]
  | f+1, l => let p := split l; merge (l.length) (msort f p.1) (msort f p.2)
def strictAsc : List Nat → Bool
  | [] => true
  | [_] => true
  | x :: y :: r => Nat.blt x y && strictAsc (y :: r)
theorem t_s : strictAsc (msort 20 keys) = true := by decide +kernel
