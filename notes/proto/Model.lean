import Spdx.Tables
namespace Spdx

abbrev Bytes := List Nat

def str (s : String) : Bytes := s.toUTF8.toList.map (·.toNat)

inductive Op | with_ | and_ | or_ | lparen | rparen | colon | plus
  deriving DecidableEq, Repr

inductive Tok
  | op (o : Op) | docRef (id : Bytes) | licRef (id : Bytes) | lic (id : Bytes) | exc (id : Bytes)
  deriving DecidableEq, Repr

inductive ScanErr
  | spaceBeforePlus
  | expectedId (off : Nat)
  | unknownLicense (lex : Bytes) (off : Nat)
  deriving DecidableEq, Repr

/-! ## character classes -/
def isIdChar (c : Nat) : Bool :=
  (65 ≤ c && c ≤ 90) || (97 ≤ c && c ≤ 122) || (48 ≤ c && c ≤ 57) || c == 45 || c == 46
def lowerC (c : Nat) : Nat := if 65 ≤ c ∧ c ≤ 90 then c + 32 else c
def lower (s : Bytes) : Bytes := s.map lowerC
def foldEq (a b : Bytes) : Bool := lower a == lower b

def lookup (tbl : List Bytes) (w : Bytes) : Option Bytes := tbl.find? (fun l => foldEq l w)

/-- `licenseLookup`: active then exception list -/
def licenseLookup (w : Bytes) : Option Tok :=
  match lookup Tables.active w with
  | some c => some (.lic c)
  | none => match lookup Tables.exceptions w with
    | some c => some (.exc c)
    | none => none

def sufOnly : Bytes := [45,111,110,108,121]           -- "-only"
def sufOrLater : Bytes := [45,111,114,45,108,97,116,101,114] -- "-or-later"

def stripSuffix? (w suf : Bytes) : Option Bytes :=
  if suf.isSuffixOf w then some (w.take (w.length - suf.length)) else none

/-- result of normalizeLicense: tokens emitted and remaining input, plus number of original bytes consumed after the word -/
def normalize (w rest : Bytes) : Option (List Tok × Bytes × Nat) :=
  match licenseLookup w with
  | some t => some ([t], rest, 0)
  | none =>
  match (stripSuffix? w sufOnly).bind licenseLookup with
  | some t => some ([t], rest, 0)
  | none =>
  match (if rest.head? = some 43 then licenseLookup (w ++ sufOrLater) else none) with
  | some t => some ([t], rest.tail, 1)
  | none =>
  match (stripSuffix? w sufOrLater).bind licenseLookup with
  | some t => if rest.head? = some 43 then some ([t, .op .plus], rest.tail, 1) else some ([t, .op .plus], rest, 0)
  | none =>
  match lookup Tables.deprecated w with
  | some c => some ([.lic c], rest, 0)
  | none => none

def opTable : List (Bytes × Op) :=
  [([87,73,84,72], .with_), ([65,78,68], .and_), ([79,82], .or_), ([40], .lparen), ([41], .rparen), ([58], .colon), ([43], .plus)]

def readOp (s : Bytes) : Option (Op × Bytes) :=
  (opTable.find? (fun p => p.1.isPrefixOf s)).map (fun p => (p.2, s.drop p.1.length))

def docRefPrefix : Bytes := [68,111,99,117,109,101,110,116,82,101,102,45]
def licRefPrefix : Bytes := [76,105,99,101,110,115,101,82,101,102,45]

/-- scan loop: `s` remaining input, `off` original offset of head of `s` -/
def scanLoop : Nat → Bytes → Nat → Except ScanErr (List Tok)
  | 0, _, _ => .ok []
  | fuel+1, s, off =>
    let sp := s.takeWhile (· == 32)
    let s1 := s.drop sp.length
    let off1 := off + sp.length
    if s1.isEmpty then .ok [] else
    match readOp s1 with
    | some (o, r) =>
      if o = .plus ∧ sp.length > 0 then .error .spaceBeforePlus
      else (scanLoop fuel r (off1 + (s1.length - r.length))).map (fun ts => .op o :: ts)
    | none =>
    if docRefPrefix.isPrefixOf s1 then
      let r := s1.drop docRefPrefix.length
      let id := r.takeWhile isIdChar
      if id.isEmpty then .error (.expectedId (off1 + docRefPrefix.length))
      else (scanLoop fuel (r.drop id.length) (off1 + docRefPrefix.length + id.length)).map (fun ts => .docRef id :: ts)
    else if licRefPrefix.isPrefixOf s1 then
      let r := s1.drop licRefPrefix.length
      let id := r.takeWhile isIdChar
      if id.isEmpty then .error (.expectedId (off1 + licRefPrefix.length))
      else (scanLoop fuel (r.drop id.length) (off1 + licRefPrefix.length + id.length)).map (fun ts => .licRef id :: ts)
    else
      let w := s1.takeWhile isIdChar
      if w.isEmpty then .error (.expectedId off1) else
      let r := s1.drop w.length
      match normalize w r with
      | none => .error (.unknownLicense w off1)
      | some (toks, r', extra) => (scanLoop fuel r' (off1 + w.length + extra)).map (fun ts => toks ++ ts)

def scan (s : Bytes) : Except ScanErr (List Tok) := scanLoop (s.length + 1) s 0

/-! ## nodes and parser -/
inductive Node
  | lic (id : Bytes) (plus : Bool) (exc : Option Bytes)
  | ref (doc : Option Bytes) (id : Bytes)
  | and (l r : Node)
  | or (l r : Node)
  deriving DecidableEq, Repr

inductive PR (α : Type)
  | err | none | ok (a : α) (rest : List Tok)

def parseLicenseRef : List Tok → PR Node
  | .docRef d :: .op .colon :: .licRef r :: rest => .ok (.ref (some d) r) rest
  | .docRef _ :: _ => .err
  | .licRef r :: rest => .ok (.ref none r) rest
  | _ => .none

def parseLicense : List Tok → PR Node
  | .lic id :: rest =>
    let plus0 := sufOrLater.isSuffixOf id
    let (plus, rest1) := match rest with
      | .op .plus :: r => (true, r)
      | r => (plus0, r)
    match rest1 with
    | .op .with_ :: .exc e :: r => .ok (.lic id plus (some e)) r
    | .op .with_ :: _ => .err
    | r => .ok (.lic id plus none) r
  | _ => .none

mutual
def parseAtom : Nat → List Tok → PR Node
  | 0, _ => .err
  | fuel+1, ts =>
    match ts with
    | .op .lparen :: rest =>
      match parseExpression fuel rest with
      | .ok e (.op .rparen :: r) => .ok e r
      | _ => .err
    | _ =>
      match parseLicenseRef ts with
      | .err => .err
      | .ok n r => .ok n r
      | .none =>
        match parseLicense ts with
        | .err => .err
        | .ok n r => .ok n r
        | .none => .err
def parseAnd : Nat → List Tok → PR Node
  | 0, _ => .err
  | fuel+1, ts =>
    match parseAtom fuel ts with
    | .ok l (.op .and_ :: r) =>
      (match r with
       | [] => .err
       | _ => match parseAnd fuel r with
         | .ok rt r' => .ok (.and l rt) r'
         | _ => .err)
    | x => x
def parseExpression : Nat → List Tok → PR Node
  | 0, _ => .err
  | fuel+1, ts =>
    match parseAnd fuel ts with
    | .ok l (.op .or_ :: r) =>
      (match r with
       | [] => .err
       | _ => match parseExpression fuel r with
         | .ok rt r' => .ok (.or l rt) r'
         | _ => .err)
    | x => x
end

def parseTokens (ts : List Tok) : Option Node :=
  match ts with
  | [] => none
  | _ => match parseExpression (3 * ts.length + 3) ts with
    | .ok n [] => some n
    | _ => none

inductive ParseErr | empty | scan (e : ScanErr) | syntax
  deriving DecidableEq, Repr

def parse (s : Bytes) : Except ParseErr Node :=
  if s.isEmpty then .error .empty else
  match scan s with
  | .error e => .error (.scan e)
  | .ok ts => match parseTokens ts with
    | some n => .ok n
    | none => .error .syntax

/-! ## rendering, sorting -/
def bPlus : Bytes := [43]
def bWith : Bytes := [32,87,73,84,72,32]
def bColon : Bytes := [58]

def render : Node → Bytes
  | .lic id plus exc => id ++ (if plus then bPlus else []) ++ (match exc with | some e => bWith ++ e | none => [])
  | .ref doc id => (match doc with | some d => docRefPrefix ++ d ++ bColon | none => []) ++ licRefPrefix ++ id
  | _ => []

def Node.isLeaf : Node → Bool
  | .lic .. => true | .ref .. => true | _ => false

/-- byte-wise lexicographic `<` as in Go string comparison -/
def bytesLt : Bytes → Bytes → Bool
  | [], [] => false
  | [], _ :: _ => true
  | _ :: _, [] => false
  | a :: as, b :: bs => if a < b then true else if b < a then false else bytesLt as bs
def bytesLe (a b : Bytes) : Bool := !bytesLt b a

def listLt : List Bytes → List Bytes → Bool
  | [], [] => false
  | [], _ :: _ => true
  | _ :: _, [] => false
  | a :: as, b :: bs => if bytesLt a b then true else if bytesLt b a then false else listLt as bs

def insertBy {α} (le : α → α → Bool) (x : α) : List α → List α
  | [] => [x]
  | y :: ys => if le x y then x :: y :: ys else y :: insertBy le x ys
def sortBy {α} (le : α → α → Bool) : List α → List α
  | [] => []
  | x :: xs => insertBy le x (sortBy le xs)

def sortLeaves (l : List Node) : List Node := sortBy (fun a b => bytesLe (render a) (render b)) l
def deepSort (ll : List (List Node)) : List (List Node) :=
  sortBy (fun a b => !listLt (b.map render) (a.map render)) (ll.map sortLeaves)

/-! ## expansion (as repaired) -/
def appendTerms (L R : List (List Node)) : List (List Node) :=
  R.flatMap (fun r => L.map (fun l => l ++ r))
def mergeTerms (L R : List (List Node)) : List (List Node) :=
  R.foldl (fun res r => res.map (fun l => l ++ r)) L

mutual
def expandOr : Node → List (List Node)
  | .or l r => expandTerm l ++ expandTerm r
  | _ => []
def expandAnd : Node → List (List Node)
  | .and l r =>
    let L := expandTerm l
    let R := expandTerm r
    if L.length > 1 ∨ R.length > 1 then appendTerms L R else mergeTerms L R
  | _ => []
def expandTerm : Node → List (List Node)
  | .lic id p e => [[.lic id p e]]
  | .ref d i => [[.ref d i]]
  | .and l r => expandAnd (.and l r)
  | .or l r => expandOr (.or l r)
end

def expand (n : Node) : List (List Node) :=
  if n.isLeaf then [[n]] else deepSort (expandTerm n)

/-! ## matching -/
def simplify (id : Bytes) : Bytes := (stripSuffix? id sufOrLater).getD id

def findIdx2 (g : List (List Bytes)) (id : Bytes) : Option Nat :=
  g.findIdx? (fun vg => vg.contains id)

def pos (id : Bytes) : Option (Nat × Nat) :=
  let sid := simplify id
  let rec go (fams : List (List (List Bytes))) (i : Nat) : Option (Nat × Nat) :=
    match fams with
    | [] => none
    | f :: fs => match findIdx2 f sid with
      | some j => some (i, j)
      | none => go fs (i+1)
  go Tables.ranges 0

def sameGroup (a b : Option (Nat × Nat)) : Bool :=
  match a, b with
  | some (i, _), some (k, _) => i == k
  | _, _ => false

def compareGT (a b : Bytes) : Bool :=
  match pos a, pos b with
  | some (i, j), some (k, l) => i == k && j > l
  | _, _ => false
def compareEQ (a b : Bytes) : Bool :=
  a == b || (match pos a, pos b with
  | some (i, j), some (k, l) => i == k && j == l
  | _, _ => false)

def matchLeaf : Node → Node → Bool
  | .lic a pa ea, .lic b pb eb =>
    if ea != eb then false
    else if foldEq (render (.lic a pa ea)) (render (.lic b pb eb)) then true
    else if pb then
      if pa then sameGroup (pos a) (pos b)
      else compareGT a b || compareEQ a b
    else if pa then compareGT b a || compareEQ b a
    else compareEQ a b
  | .ref da a, .ref db b => a == b && da == db
  | _, _ => false

def isCompatible (part allowed : List Node) : Bool :=
  part.all (fun e => allowed.any (fun a => matchLeaf e a))

inductive SatErr | badExpr | emptyList | badEntry | compoundEntry
  deriving DecidableEq, Repr

def toNodes : List Bytes → Except SatErr (List Node)
  | [] => .ok []
  | s :: ss => match parse s with
    | .error _ => .error .badEntry
    | .ok n => if n.isLeaf then (toNodes ss).map (n :: ·) else .error .compoundEntry

def satisfies (e : Bytes) (allowed : List Bytes) : Except SatErr Bool :=
  match parse e with
  | .error _ => .error .badExpr
  | .ok n =>
    if allowed.isEmpty then .error .emptyList else
    match toNodes allowed with
    | .error x => .error x
    | .ok A => .ok ((expand n).any (fun part => isCompatible part A))

def dedup : List Bytes → List Bytes → List Bytes
  | _, [] => []
  | seen, x :: xs => if seen.contains x then dedup seen xs else x :: dedup (x :: seen) xs

def extract (e : Bytes) : Option (List Bytes) :=
  match parse e with
  | .error _ => none
  | .ok n => some (dedup [] ((expand n).flatten.map render))

def validate (ls : List Bytes) : Bool × List Bytes :=
  let bad := ls.filter (fun s => match parse s with | .ok _ => false | .error _ => true)
  (bad.isEmpty, bad)

end Spdx
