package main

import (
	"bufio"
	"encoding/hex"
	"fmt"
	"math/rand"
	"os"
	"strconv"
	"strings"

	"github.com/github/go-spdx/v2/spdxexp"
	"github.com/github/go-spdx/v2/spdxexp/spdxlicenses"
)

var rng *rand.Rand
var active, deprecated, exceptions []string
var famIDs []string

func pick(xs []string) string { return xs[rng.Intn(len(xs))] }

func caseMut(s string) string {
	switch rng.Intn(6) {
	case 0:
		return strings.ToLower(s)
	case 1:
		return strings.ToUpper(s)
	case 2:
		b := []byte(s)
		for i := range b {
			if rng.Intn(2) == 0 {
				b[i] = strings.ToUpper(string(b[i]))[0]
			} else {
				b[i] = strings.ToLower(string(b[i]))[0]
			}
		}
		return string(b)
	}
	return s
}

func genTerm() string {
	switch rng.Intn(12) {
	case 0:
		return "LicenseRef-" + pick([]string{"a", "b", "x-1.0", "MIT"})
	case 1:
		return "DocumentRef-" + pick([]string{"d", "e.1"}) + ":LicenseRef-" + pick([]string{"a", "b"})
	}
	var id string
	switch rng.Intn(4) {
	case 0:
		id = pick(active)
	case 1:
		id = pick(deprecated)
	default:
		id = pick(famIDs)
	}
	if rng.Intn(3) == 0 {
		id = caseMut(id)
	}
	switch rng.Intn(8) {
	case 0, 1:
		id += "+"
	case 2:
		id += "-only"
	case 3:
		id += "-or-later"
	case 4:
		id += "-or-later+"
	}
	if rng.Intn(6) == 0 {
		id += " WITH " + pick(exceptions)
	}
	return id
}

type tree struct {
	op   string
	l, r *tree
	leaf string
}

func genTree(d int, terms []string) *tree {
	if d == 0 || rng.Intn(3) == 0 {
		return &tree{leaf: pick(terms)}
	}
	op := "AND"
	if rng.Intn(2) == 0 {
		op = "OR"
	}
	return &tree{op: op, l: genTree(d-1, terms), r: genTree(d-1, terms)}
}

func sp() string { return strings.Repeat(" ", rng.Intn(3)) }

func (t *tree) render(parentOp string, right bool) string {
	if t.op == "" {
		if rng.Intn(8) == 0 {
			return "(" + sp() + t.leaf + sp() + ")"
		}
		return t.leaf
	}
	s := t.l.render(t.op, false) + " " + sp() + t.op + " " + sp() + t.r.render(t.op, true)
	need := false
	if parentOp == "AND" && t.op == "OR" {
		need = true
	}
	if parentOp == t.op && !right {
		need = true // left-nested same op needs parens to keep the shape
	}
	if parentOp == "OR" && t.op == "AND" && rng.Intn(2) == 0 {
		need = true
	}
	if parentOp == t.op && right && rng.Intn(3) == 0 {
		need = true
	}
	if need {
		return "(" + sp() + s + sp() + ")"
	}
	return s
}

func mutate(s string) string {
	toks := strings.Fields(strings.NewReplacer("(", " ( ", ")", " ) ").Replace(s))
	if len(toks) == 0 {
		return s
	}
	switch rng.Intn(6) {
	case 0: // truncate
		return strings.Join(toks[:rng.Intn(len(toks)+1)], " ")
	case 1: // delete
		i := rng.Intn(len(toks))
		return strings.Join(append(append([]string{}, toks[:i]...), toks[i+1:]...), " ")
	case 2: // insert
		i := rng.Intn(len(toks) + 1)
		ins := pick([]string{"AND", "OR", "WITH", "(", ")", "+", ":", "MIT", "FOO", "and", "DocumentRef-x", "LicenseRef-y", "Classpath-exception-2.0", " +", "\xc3\xa9", "\xff"})
		n := append(append(append([]string{}, toks[:i]...), ins), toks[i:]...)
		return strings.Join(n, " ")
	case 3: // tight join
		return strings.Join(toks, "")
	case 4: // byte truncate
		return s[:rng.Intn(len(s)+1)]
	default:
		b := []byte(s)
		b[rng.Intn(len(b))] = byte(rng.Intn(256))
		return string(b)
	}
}

func hx(s string) string {
	if s == "" {
		return "."
	}
	return hex.EncodeToString([]byte(s))
}
func hxl(l []string) string {
	if len(l) == 0 {
		return "-"
	}
	o := make([]string, len(l))
	for i, s := range l {
		o[i] = hx(s)
	}
	return strings.Join(o, ",")
}

func sat(e string, a []string) (res string) {
	defer func() {
		if r := recover(); r != nil {
			res = "PANIC"
		}
	}()
	ok, err := spdxexp.Satisfies(e, a)
	if err != nil {
		return "err"
	}
	return fmt.Sprint(ok)
}
func ext(e string) (res string) {
	defer func() {
		if r := recover(); r != nil {
			res = "PANIC"
		}
	}()
	l, err := spdxexp.ExtractLicenses(e)
	if err != nil {
		return "err"
	}
	return "ok " + hxl(l)
}
func val(e string) (res string) {
	defer func() {
		if r := recover(); r != nil {
			res = "PANIC"
		}
	}()
	_, err := spdxexp.ExtractLicenses(e)
	if err == nil {
		return "valid"
	}
	m := err.Error()
	var lex string
	var off int
	if n, _ := fmt.Sscanf(m, "unknown license '%s at offset %d", &lex, &off); n == 2 {
		return fmt.Sprintf("invalid unknown %s %d", hx(strings.TrimSuffix(lex, "'")), off)
	}
	if n, _ := fmt.Sscanf(m, "expected id at offset %d", &off); n == 1 {
		return fmt.Sprintf("invalid expectedid %d", off)
	}
	return "invalid other"
}

func main() {
	seed, _ := strconv.Atoi(os.Args[1])
	n, _ := strconv.Atoi(os.Args[2])
	rng = rand.New(rand.NewSource(int64(seed)))
	active, deprecated, exceptions = spdxlicenses.GetLicenses(), spdxlicenses.GetDeprecated(), spdxlicenses.GetExceptions()
	for _, f := range spdxlicenses.LicenseRanges() {
		for _, g := range f {
			famIDs = append(famIDs, g...)
		}
	}
	famIDs = append(famIDs, "AGPL-1.0-only", "CECILL-2.1", "EUPL-1.2", "MIT", "ISC", "Apache-2.0")
	ops, _ := os.Create("ops.txt")
	impl, _ := os.Create("impl.txt")
	wo, wi := bufio.NewWriter(ops), bufio.NewWriter(impl)
	defer wo.Flush()
	defer wi.Flush()
	for i := 0; i < n; i++ {
		nt := 1 + rng.Intn(5)
		terms := make([]string, nt)
		for j := range terms {
			terms[j] = genTerm()
		}
		t := genTree(rng.Intn(5), terms)
		e := t.render("", false)
		if rng.Intn(4) == 0 {
			e = mutate(e)
		}
		var allowed []string
		for _, x := range terms {
			if rng.Intn(2) == 0 {
				allowed = append(allowed, x)
			}
		}
		for k := rng.Intn(3); k > 0; k-- {
			allowed = append(allowed, genTerm())
		}
		if rng.Intn(20) == 0 && len(allowed) > 0 {
			allowed[rng.Intn(len(allowed))] = mutate(allowed[0])
		}
		rng.Shuffle(len(allowed), func(a, b int) { allowed[a], allowed[b] = allowed[b], allowed[a] })
		fmt.Fprintf(wo, "S %s %s\n", hx(e), hxl(allowed))
		fmt.Fprintln(wi, sat(e, allowed))
		fmt.Fprintf(wo, "E %s\n", hx(e))
		fmt.Fprintln(wi, ext(e))
		fmt.Fprintf(wo, "V %s\n", hx(e))
		fmt.Fprintln(wi, val(e))
	}
}
