import Spdx.Model
open Spdx

def hexVal (c : Char) : Nat :=
  if '0' ≤ c ∧ c ≤ '9' then c.toNat - 48 else if 'a' ≤ c ∧ c ≤ 'f' then c.toNat - 87 else 0

def unhex (s : String) : Bytes :=
  if s == "." then [] else
  let rec go : List Char → Bytes
    | a :: b :: r => (hexVal a * 16 + hexVal b) :: go r
    | _ => []
  go s.toList

def hexDigit (n : Nat) : Char := if n < 10 then Char.ofNat (48 + n) else Char.ofNat (87 + n)
def hex (b : Bytes) : String := String.ofList (b.flatMap (fun c => [hexDigit (c / 16), hexDigit (c % 16)]))

def splitList (s : String) : List Bytes :=
  if s == "-" then [] else (s.splitOn ",").map unhex

def handle (line : String) : String :=
  match (line.trimAscii.toString.splitOn " ") with
  | ["S", e, a] =>
    match satisfies (unhex e) (splitList a) with
    | .ok true => "true" | .ok false => "false" | .error _ => "err"
  | ["E", e] =>
    match extract (unhex e) with
    | some l => "ok " ++ ",".intercalate (l.map hex)
    | none => "err"
  | ["V", e] =>
    match parse (unhex e) with
    | .ok _ => "valid"
    | .error (.scan (.unknownLicense w off)) => s!"invalid unknown {hex w} {off}"
    | .error (.scan (.expectedId off)) => s!"invalid expectedid {off}"
    | .error _ => "invalid other"
  | _ => "bad-op"

partial def loop (h : IO.FS.Stream) (out : IO.FS.Stream) : IO Unit := do
  let line ← h.getLine
  if line.isEmpty then return ()
  out.putStrLn (handle line)
  loop h out

def main : IO Unit := do
  loop (← IO.getStdin) (← IO.getStdout)
